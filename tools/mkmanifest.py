#!/usr/bin/env python3
"""Regenerate MANIFEST.json from the table below (keeps it schema-valid at all times)."""
import json
from pathlib import Path

VERIF = Path(__file__).resolve().parent.parent
PROOF_NOTE = ("Trusted: Lean 4.33 kernel; axioms propext/Classical.choice/Quot.sound only (audited each run); "
              "the hand-written model is tied to /repo by the correspondence check in this command "
              "(differential testing of model definitions vs real code under a virtual clock) — that tie is "
              "sampled, not proved; CPython/asyncio/json/datetime semantics; ")

# id -> (text, note-extra, technique, design_ref)
CHECKS = {
 "C01": ("Lean theorems over ALL finite histories of in-memory broker atoms (any interleaving, any cancellation point = atom prefix): per-id conservation (mem_count), exactly-one-place (mem_exactly_one_place / mem_onePlace), per-op clauses (ack_removes, nack_dead_letters, requeue_replaces, reject_origin_partial + refutation witnesses).  Redis broker (model Redis.R, every round trip / MULTI…EXEC an atom): redis_conservation (after ANY finite history of enqueue / take from any category / ack / nack / reject / requeue by well-behaved clients every message is in at most one place; step_places: an operation changes only its own message's places, to 0 by ack and to 1 otherwise), redis_ack_removes, redis_nack_dead_letters, redis_reject_origin (FULL origin clause), redis_requeue_atomic (one transaction: no in-between state), take_marks_processing.  RabbitMQ (model Rabbit.S over an abstract AMQP server): rabbit_ack_removes, rabbit_nack_dead_letters, rabbit_reject_origin, refutations rabbit_requeue_window_witness (F2r) and rabbit_nack_nonnormal_witness (F23). "
         "The code-model is compared with the real InMemoryMessageBroker after every call of random well-behaved sessions, and every call kind is cancelled at every event-loop callback index; Lean predicates are evaluated on the implementation's snapshots. Redis: sessions on the real RedisMessageBroker/_RedisConsumer against an in-process fake server, state compared with Redis.R after every call; exactly-one-place evaluated on the fake server's keyspace; a call that never returns is reported with the history so far. RabbitMQ: sessions on the real RabbitMessageBroker/_RabbitConsumer against an in-process fake AMQP server, state vs Rabbit.S after every call; requeue cancelled after every event-loop step; nack outside the NORMAL category.",
         "in-memory, Redis and RabbitMQ brokers (Redis / AMQP servers = in-process fakes, assumption sets R, A); queue_flush/delete excluded.",
         "Lean 4 proof (induction over atom histories) + differential correspondence + cancellation-point enumeration", "§5 C01"),
 "C02": ("Lean: for EVERY outcome (return, raise, timeout, conversion/dependency failure, six eager responses with any set_result/set_exception/add_callback prefix, callbacks raising or not), every retry budget/attempt count, recurrence and result setting, `process` makes exactly one broker call (exactly_one_terminal), the ladder equals the disposition table (report_eq_disposition), nothing follows an eager response (nothing_after_eager). "
         "Tie: the whole outcome × retry-state × recurrence × result × converter table is run on the real Worker (in-memory broker, virtual time, jobs concurrent in one worker) and every delivery's broker calls/stores/body/callbacks are compared with the model; the property is evaluated on the observation. The same worker on the Redis and RabbitMQ brokers (in-process fake servers): per-delivery broker calls vs the model.",
         "in-memory broker; thread/process pools not exercised; one genuine defect (F8) repaired by fix: commit 4db1223.",
         "Lean 4 proof (case analysis, unbounded in retry counters) + exhaustive-table differential correspondence", "§5 C02"),
 "C03": ("Lean (in-memory broker atoms): cancel_before_returns, cancel_after_disposed, stop_conserves_partial (a task cancelled at ANY point inside an ack/nack followed by the runner's reject leaves the message in exactly one place), finish_returns_all, return_time_bound (timer model), refutation requeue_window_witness.  Redis crash recovery: maintenance_single / maintenance_not_before (a held message is returned by maintenance iff its execution timeout has elapsed since the second of its take).  RabbitMQ: rabbit_requeue_window_witness. "
         "Tie: crash-point enumeration on the real Worker: 7 phase scenarios × graceful ∈ {0, 2 ms, 25 s} × stop request (the really registered signal handler) delivered at every callback index near any delivery / broker call / actor boundary (all indices in thorough); final broker state judged per message (disposed by one completed call xor back once with unchanged counter; nothing in-flight; none-or-all for interrupted calls); return time bound. Redis: crash scenarios (a consumer takes messages with timeouts from 1 s to 3 days at all positions inside a clock second and is abandoned; another process advances time and runs maintenance): returned not before the timeout (whole-second store: 1 s slack) and returned after it, back in exactly one queue; state vs Redis.R after every call. RabbitMQ: requeue cancelled after every event-loop step on the fake AMQP server. Worker on the Redis / RabbitMQ brokers (fake servers): the same stop-at-every-callback enumeration (3–5 scenarios × graceful periods); on RabbitMQ the final state is read after the worker's connection is closed.",
         "in-memory broker for the worker runs; Redis crash recovery through maintenance on the fake server; process death and OS signal timing are runtime. PARTIAL: requeue window recorded as known finding F2.",
         "Lean 4 proof + crash-point (fault) enumeration on the real worker", "§5 C03"),
 "C04": ("Lean: the FULL statement as one theorem (C04.chain_ok): for every N ≥ 0, every failure pattern, every retry policy, duration and latency profile, recurring or not, the chain of executions of one scheduling satisfies chainOk — counters 0,1,2…, at most N+1 executions, exactly N+1 then dead-lettered/rescheduled when all fail, a success ends the chain with ack, the k-th retry not before failure + policy(k); plus counter_step, counter_bounded, chain_length, success_ends. "
         "Tie: retry chains on the real Worker (all bitmasks for small N, exception/timeout, four policies, forced retries) — per-delivery comparison with the model and chainOk evaluated on the observed chain. The same chains on the Redis and RabbitMQ brokers (in-process fake servers; back-off through the delayed set / TTL queue).",
         "in-memory broker (Redis/RabbitMQ back-off delivery: see C05).",
         "Lean 4 proof (induction over the chain, unbounded N) + differential correspondence", "§5 C04"),
 "C05": ("Lean: invariant 'every waiting message that had a due time is past it' preserved by every atom, hence for ALL valid histories a normal poll never hands out a message before its due time (mem_never_early_partial; refutation witness for returns out of a DELAYED hold); update_moves_all_due + poll_progress for 'never forgotten'.  Redis: redis_never_early (a delayed message stored with the rounded-up score of its due time is never taken before it, for all positions of due time and current time inside their clock seconds; ceilSecs_le_secs, fetchDelayed_due, enqueue_score), delayed_only_visible_in_delayed, witness truncated_score_early_witness of the repaired defect.  RabbitMQ: expiry_not_early / expiry_not_late (the computed per-message TTL lets a message out at most 1 ms before and never after its execution time, incl. float shortfall), expire_step_due, head_blocks (nothing behind a not-yet-due head leaves the delayed queue) + refutation rabbit_head_of_line_witness (F21). "
         "Tie: snapshot correspondence in random sessions; notEarlyMs/latencyOk evaluated on every delivery of the real broker in sessions and in listening scenarios (due offsets × consumer phases × enqueue orders, virtual time). Redis: every delivery to a NORMAL-category consumer in random sessions (due times at sub-second positions, clock advances of 1 µs … 1 day) judged at millisecond resolution; state vs Redis.R after every call. RabbitMQ: arrival times at the consumer in random sessions (sub-millisecond positions) vs execution times; head-of-line scenario.",
         "in-memory, Redis and RabbitMQ brokers (Redis / AMQP servers = in-process fakes, assumption sets R, A); wall-clock jitter of sleep() is runtime; latency is proved per poll and sampled end-to-end.",
         "Lean 4 proof (invariant over atom histories) + differential correspondence + virtual-time scenarios", "§5 C05"),
 "C06": ("Lean: one_successor (exactly one requeue after every completed iteration, with C02), reset, window (now < next ≤ now + period, on the grid, via C19), successorOk_model, first_run_honours_deferred_until, spacing_partial + refutation spacing_witness. "
         "Tie: recurring jobs on the real Worker over virtual time (periods × duration profiles × outcome patterns × deferred_until), successorOk on every requeue, message count after every iteration, spacingOk on consecutive scheduled times. The same on the Redis and RabbitMQ brokers (in-process fake servers).",
         "cron branch not exercised (croniter absent); spacing clause PARTIAL (known finding F5).",
         "Lean 4 proof (arithmetic + case analysis) + differential correspondence over virtual time", "§5 C06"),
 "C07": ("Lean: params_roundtrip / bucket round trips at the JSON-tree level (every field, every optional subset), td_float_roundtrip (durations ≤ 100 y through total_seconds()/timedelta(seconds=float) for EVERY rounding with relative error ≤ 2^-53, over ℚ, Mathlib), redis_names_roundtrip, names_unambiguous, topic_prefix_exact, charclass_no_colon (character classes re-extracted from the live regexes on every run), marker_check/deconstruct, redis_end_to_end, rabbit_end_to_end. "
         "Tie: implementation encodings parsed and typed field by field vs the Lean tree; decode∘encode on the implementation; the float assumption checked on thousands of real doubles; Redis name functions/validators/marker vs the model; Job.enqueue→consume on in-memory, fake-Redis and fake-RabbitMQ brokers (inline and bucket transport, all priorities, generated argument values) against an independently written payload document.",
         "json / isoformat / float repr are trusted library behaviour; Redis and RabbitMQ servers are in-process fakes (assumption sets R, A). One genuine defect (F14, priority 0 on RabbitMQ) repaired by fix: commit 8741207.",
         "Lean 4 proof (incl. a Mathlib-based rational/floor argument) + differential correspondence on three brokers", "§5 C07"),
 "C08": ("Lean: basic_binds_spec_partial — for EVERY well-formed signature (five parameter kinds, defaults, dependencies mixed in) and every non-empty payload the call made through BasicConverter (convert_inputs composed with a model of CPython's call binding) equals the SPEC of the statement; basic_no_args_binds_spec; pydantic_binds_spec (all supported signatures, all payloads); converters_agree; missing_required_fails; no_args_runs_defaults; refutation basic_varargs_collision_witness. "
         "Tie: random programs compiled to real async defs, registered through Router.actor (basic / pydantic / default selection, both decorator forms) and run through the real _Processor.actor_run: what the body received vs the models and vs the SPEC; CPython's binding differentially tested against Conv.call; convert_outputs parsed back.",
         "values already typed (parameters unannotated); dependency resolution itself is C18. PARTIAL: known finding F6b; two genuine defects (inspect._empty for a missing required argument; pydantic + empty payload) repaired by fix: commits e7907ca, 6b4d5d8.",
         "Lean 4 proof (list/lookup reasoning, ~600 lines) + program-level differential correspondence", "§5 C08"),
 "C09": ("Lean: transition system of the runner's slot bookkeeping (deliver / pause / acquire / hand-over / wake chain / spawn / done / cancellation; asyncio.Semaphore 3.12 semantics); invariant slots-conserved ∧ no-blocked-waiter-with-a-free-slot ∧ started = processed + in-flight for EVERY event sequence: inflight_le_limit, no_lost_wakeup, progress, done_frees. "
         "Tie: step-level acceptor — the real runner's counters after EVERY event-loop callback of real Worker runs (limits × queues × durations × arrivals × pause latency × store faults) must be explained by model events (subset construction over hidden state); running actor bodies ≤ limit at every callback; all jobs executed before the bound. The same runner on the Redis and RabbitMQ brokers (prefetching consumers, in-process fake servers).",
         "liveness on the implementation observed up to a virtual-time bound; semaphore fairness trusted.",
         "Lean 4 proof (invariant over all event sequences) + step-level acceptor on the real worker", "§5 C09"),
 "C10": ("Lean (same runner model): stops_after_M_finished, processed_lt_M_before_stop, started_le_processed_plus_limit, started_le_M_partial (bound M−1+tasks_limit while not stopped) + refutations overshoot_witness / overshoot_witness_limit1 (the ≤ M clause is false on the current code). "
         "Tie: acceptor with maxTasks = M on real Worker runs (M × backlog × durations × tasks_limit × queues), executions started, return of run(), leftover queue content and counters, run-on-enqueue plugin mode. The same on the Redis and RabbitMQ brokers (prefetching consumers, in-process fake servers): messages beyond the limit must be back in their queue, not in flight (defect repaired by fix: dfed4c8).",
         "PARTIAL: upper bound clause recorded as known finding F4 (attributed only when the run is explained event-for-event by the model).",
         "Lean 4 proof + step-level acceptor on the real worker", "§5 C10"),
 "C11": ("Lean: invariant of every router/worker (one actor per name; topic sets = exactly the (name, queue) pairs of the actors; no empty topic set) preserved by registration and inclusion, for ANY sequence: serves_iff (full statement after fix 42c6068), union_last_wins, executes_named_actor, no_accept_all_consumer; broker side: foreign_untouched, not_blocked (in-memory rotation), refutation rotation_livelock_witness. "
         "Tie: random router sets with overrides vs Route.worker; the real worker run with every (name, queue) job pair: which function ran for which id, foreign messages untouched; second worker with disjoint topics on a shared queue.",
         "in-memory broker (Redis prefix filter covered by C07.topic_prefix_exact; RabbitMQ reject+requeue not exercised). Known finding F15 (livelock of two alternating consumers); defect F7 repaired by fix: 42c6068.",
         "Lean 4 proof (invariant over registration sequences) + differential correspondence", "§5 C11"),
 "C12": ("Lean: a normal poll never returns an overdue message (mem_no_expired_delivery), an overdue head is dead-lettered and stays retrievable (mem_expired_to_dead, mem_dead_retrievable), nothing but nack or an overdue poll adds to the dead letters (mem_live_not_dropped, all atoms), boundary and TTL-clock theorems.  Redis: redis_no_expired_delivery (any state, any priority order, every category but DEAD), nack_dead_letters_own_priority, dead_letters_retrievable.  RabbitMQ: onMessage_spec, rabbit_no_expired_handover (consume() of a NORMAL consumer never hands over an expired message, however long it waited in the prefetch queue), rabbit_dead_letters_retrievable. "
         "Tie: sessions + exhaustive boundary table (ttl × message kind × −1/0/+1 µs) + idle-consumer arrivals on the real broker. Redis: sessions with TTLs; no overdue delivery; only overdue messages are dead-lettered by a consume pass; at the end a dead-letter consumer must retrieve every dead letter. RabbitMQ + Redis: prefetch scenarios (TTL runs out while the message waits in the consumer's local queue); RabbitMQ TTL sessions vs Rabbit.S.",
         "in-memory, Redis and RabbitMQ brokers (Redis / AMQP servers = in-process fakes, assumption sets R, A).",
         "Lean 4 proof (case analysis over all atoms) + differential correspondence + boundary enumeration", "§5 C12"),
 "C13": ("Lean: execution_stores_own_outcome, latest_wins, disabled_writes_nothing (all outcomes incl. every eager prefix), store_failure_harmless (ALL outcomes, after fix 4db1223), eager_last_set. "
         "Tie: real Worker + result bucket broker: Job.result read back after EVERY execution on fresh and long-lived Job objects (values, exceptions, retry chains, eager set_result/set_exception, reused result ids), per-delivery store comparison with the model, fault enumeration over the failing store_bucket call. The same with the Redis message and bucket brokers and on RabbitMQ (in-process fake servers).",
         "in-memory bucket broker; time_ns monotone.",
         "Lean 4 proof (case analysis/induction over declarations) + differential correspondence + fault enumeration", "§5 C13"),
 "C14": ("Lean: invariant (ids unique, one believer per id, beliefs backed by processing entries) preserved by every atom; for ALL histories of any number of consumers satisfying StepOk at most one consumer believes it holds a message (mem_single_holder_partial, success_once); refutation witness for finish() with a foreign holder.  Redis: redis_take_removes_partial (reads and takes of different consumers not interleaved), take_marks_processing, refutation redis_take_race_witness (two consumers reading before either takes). "
         "Tie: multi-consumer sessions on the real broker with singleHolder evaluated after every call. Redis: two real consumers on two connections polling the same queue concurrently on the fake server; their round trips replayed as model atoms in server order; duplicate hand-out judged.",
         "in-memory and Redis brokers (Redis server = in-process fake, assumption set R); on RabbitMQ exclusive delivery is the server's own guarantee (assumption A), not exercised; PARTIAL: finish() while another consumer holds a message is excluded (known finding F3).",
         "Lean 4 proof (invariant induction) + differential correspondence", "§5 C14"),
 "C15": ("Lean: per-consumer view lemma (a poll delivers exactly the oldest wanted waiting message, or expires the head, or rotates a foreign head) and 'all other atoms only append to the view' — FIFO for every history with one consumer (mem_fifo, other_atoms_append, mem_return_before_later).  Redis: redis_fifo (the consumer takes the OLDEST matching waiting name of a priority, for every list length and every mix of matching and foreign names — via fetchList_oldest over the 10-name windows), enqueue_does_not_overtake, returned_is_next.  RabbitMQ: insert_after_equal_or_higher, fifo_two (server queue order by priority, then arrival). "
         "Tie: single-consumer sessions (backlog 1…35, foreign topics, rejects) on the real broker: inOrder on enqueue vs delivery order. Redis: single-consumer sessions with backlogs shorter and longer than the fetch window, topic filters, rejects; delivery order judged; state vs Redis.R after every call. RabbitMQ: arrival order at the consumer in sessions on the fake AMQP server vs Rabbit.S.",
         "in-memory, Redis and RabbitMQ brokers (Redis / AMQP servers = in-process fakes, assumption sets R, A).",
         "Lean 4 proof (view refinement) + differential correspondence", "§5 C15"),
 "C16": ("Lean: at_most_one_broker_call for EVERY call sequence/category/retry state, used_handle_refuses, category_refusals, retry_budget_refusal_keeps_handle, refusals_keep_handle, final_eq_spec (callbacks after an eager response = registration order with the store in the place of the latest set_*: full statement), body_stops. "
         "Tie: all call sequences up to length 3 (thorough; sampled in quick) + random long ones on real Message objects vs Handle.calls; random set_*/add_callback prefixes through the real Worker vs the model and Pred.C16.orderOk. Eager responses also through the Redis and RabbitMQ brokers (in-process fake servers).",
         "sequential calls only.",
         "Lean 4 proof (induction over call sequences / declarations) + exhaustive small-scope differential correspondence", "§5 C16"),
 "C17": ("Lean: for EVERY tree of wrapped operations (any nesting depth / fan-out) a top-level call emits exactly before + (after iff it succeeds) and nothing for nested calls (signal_shape, nested_silent, no_emitter_silent); arguments by name (args_by_name_positional/keyword, dict.update semantics); a subscriber sees only the arguments its parameters name (subscriber_sees_only_named); routing_own_connection for any number of processors, witness of the repaired shared-emitter defect. "
         "Tie: a tracing shim under every wrapper records the operation trees the real code executed (call-level scripts incl. raising operations and all argument styles; whole job lifecycles on two workers of two connections); recording subscribers record every signal; per operation the recorded signals = Mw.run of the traced tree, by argument identity, with before finished before / after started after the operation, delivered to the own connection only; every scenario re-run without subscribers: same results, exceptions, operations and state (times stripped).",
         "in-memory brokers; subscribers raise Exception (not BaseException); the outcome's independence of subscribers is decided on implementation runs (8 subscriber kinds), the model has no subscriber input. Defect F9 repaired by fix: 1c6a66c.",
         "Lean 4 proof (structural induction over operation trees) + trace-level correspondence + differential runs", "§5 C17"),
 "C18": ("Lean: resolve_sound (what the resolver returns is the specified value Denotes — the current provider applied to the values of its own sub-dependencies — for EVERY environment: depth, fan-out, sharing), resolve_terminates (any acyclic declaration graph, via any rank function), used_providers_current + override_everywhere (after an override no resolution anywhere calls the replaced function), failing_provider_no_value, provider_failure_follows_retry_rules (depFail = failed, un-entered execution disposed by the C02 table), declarations: posonly_dependency_rejected, plain_without_default_rejected, var_args_rejected, accepted_declaration_callable (an accepted declaration binds, by the CPython call model of C08, every dependency parameter to its resolved value and every other to its default — never a run-time rejection). "
         "Tie: generated programs (provider/actor source compiled, real inspect-based declaration code): random DAGs with shared sub-dependencies, message dependency leaves, sync/async, failing providers, override sequences changing sub-dependency sets, both converters, payload with/without defaulted entry; the actor's received values and provider call multisets vs Deps.resolve / Val.fns; failing resolutions: actor not entered, retries+1 attempts, dead-lettered; random signatures vs declOk and real call vs callProvider.",
         "in-memory broker; call counts compared for successful resolutions only (gather does not cancel siblings after a failure). Known finding F16 (PEP 563 string annotations with BasicConverter).",
         "Lean 4 proof (induction on recursion budget, inductive spec relation) + differential correspondence on generated programs", "§5 C18"),
 "C19": ("Lean theorems (all retry numbers, all timestamps/periods, unbounded Int/Nat) about Sched.backoff/nextDefer/computeNext/overdue; "
         "the model functions are compared with the real retry policy, compute_next_execution_time, _prepare_* and the four is_overdue copies under a pinned clock, "
         "and the Lean predicates are evaluated on the implementation's values.",
         "cron branch is a model parameter (croniter absent).",
         "Lean 4 proof (omega/induction-free arithmetic) + differential correspondence", "§5 C19"),
 "C20": ("Lean: get_endpoint_reports_status (EVERY text whose head starts with `GET <endpoint> <anything>` — any version text, header lines, body — is answered with the status), other_request_404, handle_total (any text: dropped or one of exactly three contents), no_blank_line_dropped; server bookkeeping over ANY event sequence (any amount of traffic and garbage, starts, stops, failures): traffic_preserves_state, status_iff_failed, serving_iff_running, truthful (200/503/refused as a function of the history). "
         "Tie: (a) protocol level — the real data_received on a recording transport vs Health.handle for thousands of byte strings (15 kinds incl. truncations, invalid UTF-8, near-miss paths) × 4 endpoints × both statuses, full response text except Date; (b) socket level, real time — a real Worker with the server on a loopback port, jobs on two queues, event scripts (whole / fragmented requests, garbage, 600 kB request, bursts of 20 connections, held connections, injected consumer failure) vs Health.run; port refused before and after the run; every healthy-queue job executed exactly once; stop by SIGINT, by cancellation, with an idle connection held.",
         "loopback TCP, real time (schedules sampled, not enumerated); endpoints without spaces; CPython 3.12 wait_closed semantics. Known findings F17 (fragmented request dropped), F19 (port open after cancelled run), F20 (idle connection makes run() raise TimeoutError); defect F18 repaired by fix: fdfa58a.",
         "Lean 4 proof (induction over event sequences, text-splitting lemmas) + differential correspondence at protocol and socket level", "§5 C20"),
}
PENDING_REASON = "check not built yet in this round (work in progress; see DESIGN.md §9 order of work)"
ALL = [f"C{i:02d}" for i in range(1, 21)]

def main():
    checks = []
    for pid in ALL:
        if pid not in CHECKS:
            continue
        text, note, tech, ref = CHECKS[pid]
        checks.append({
            "property_id": pid,
            "quick_cmd": f"./check {pid} --tier quick",
            "thorough_cmd": f"./check {pid} --tier thorough",
            "evidence_file": f"evidence/{pid}.json",
            "replay_cmd_template": f"./check {pid} --replay {{path}}",
            "engine": "lean-proof+correspondence",
            "level_claimed": {"category": "proof", "text": text, "design_ref": ref},
            "level_note": PROOF_NOTE + note,
            "technique": tech,
        })
    m = {
        "version": 1,
        "setup_cmd": "./setup.sh",
        "hooks": {
            "guard": "REPID_VERIF",
            "enable": "no source hooks: the harness patches clock / event loop / server clients from outside the repository",
            "baseline_off_cmd": "cd /repo && /venv/bin/python -m pytest -ra -q -p no:cacheprovider --timeout=900 --continue-on-collection-errors",
            "source_commits": [],
            "add_only": True,
        },
        "engines": [{
            "name": "lean-proof+correspondence",
            "path": "check",
            "serves_properties": [c["property_id"] for c in checks],
            "kind_free_text": "Lean 4 theorems about a hand-written executable model (lean/), tied to /repo on every run by a behavioural correspondence check (harness/) through a line protocol to the compiled model driver",
        }],
        "checks": checks,
        "not_applicable": [{"property_id": p, "reason": PENDING_REASON} for p in ALL if p not in CHECKS],
        "notes": "All checks: ./check <id> --tier quick|thorough. Exit 2 = machinery failure (never a VIOLATION).",
    }
    (VERIF / "MANIFEST.json").write_text(json.dumps(m, indent=1) + "\n")

if __name__ == "__main__":
    main()
