"""C02 — every delivery ends in exactly one, correct disposition.

Tie: the full outcome table — {return, raise, timeout, conversion failure, dependency failure, six
eager responses (bare / with set_result / set_exception / callbacks)} × retry state {no budget,
budget left (first and later attempt), budget exhausted} × recurring or not × result on/off × both
converters — is run on the real Worker (in-memory broker, virtual time), many jobs concurrently in
one worker.  Per delivery, the broker calls / stores / body-entered observed at the broker boundary
are compared with the Lean model `Worker.process`, and the property itself (exactly one broker call;
for non-eager outcomes the one of the disposition table) is evaluated on the observation."""
from __future__ import annotations

import implenv  # noqa: F401

import asyncio

import vtime
import workrun
from common import NONE, A, Model, Result, Rng, parse_sx, sx
from workrun import S, WorkerRun, deliveries, outcome_sx, policy_us

RULE = ("exhaustive table outcome(5 plain + 6 eager × {bare, setResult, setException, quiet callback, raising callback, "
        "callback+setResult}) × retry-state(4) × recurring(2) × result(2) × converter(2), all jobs of one converter "
        "processed concurrently by one worker; plus PRNG-drawn mixes with random tasks_limit and store failures; "
        "a case = one delivery, distinct by (outcome, retry class, recurring, result, converter)")
ASSUMPTIONS = ["Redis / RabbitMQ runs use in-process fake servers (assumption sets R, A)", "in-memory broker; BaseExceptions other than _NoAction/CancelledError are outside the statement",
               "payload-bucket fetch failures happen before actor_run and are not in the statement's list"]

PLAIN = [{"k": "ret"}, {"k": "raise"}, {"k": "timeout"}, {"k": "depFail"}, {"k": "badret"}]
APIS = ["ack", "nack", "reject", "reschedule", ["retry", None], ["retry", 2 * S], ["forceRetry", None], ["forceRetry", 3 * S]]
PRES = [[], ["setResult"], ["setException"], [["cb", 1, False]], [["cb", 1, True]], [["cb", 1, False], "setResult", ["cb", 2, False]],
        ["setResult", "setException"]]


def table_jobs(full: bool, rng: Rng) -> list[dict]:
    outcomes = [dict(o) for o in PLAIN]
    for api in APIS:
        for pre in (PRES if full else [PRES[0], rng.choice(PRES[1:])]):
            outcomes.append({"k": "eager", "pre": pre, "api": api, "guard": len(outcomes) % 3 == 0})
    jobs = []
    n = 0
    for o in outcomes + [{"k": "convFail"}]:
        for retries, nfail in ((0, 0), (2, 0), (2, 1), (2, 2)):
            for recurring in (False, True):
                for result in (False, True):
                    n += 1
                    j = {"id": f"j{n}", "retries": retries, "store_result": result, "timeout": 2 * S,
                         "plan": [{"k": "raise"}] * nfail + [o, {"k": "ret"}]}
                    if o["k"] == "convFail":
                        j["payload"] = "convFail"
                        j["plan"] = [o]
                    if recurring:
                        j["defer_by"] = 4 * S
                    jobs.append(j)
    # attempt counter ABOVE the budget (only reachable through force_retry), then each plain outcome
    fr = {"k": "eager", "pre": [], "api": ["forceRetry", None]}
    for o in PLAIN:
        for retries, prefix in ((0, [fr]), (1, [{"k": "raise"}, fr]), (0, [fr, fr])):
            for recurring in (False, True):
                n += 1
                j = {"id": f"j{n}", "retries": retries, "store_result": False, "timeout": 2 * S,
                     "plan": prefix + [o, {"k": "ret"}]}
                if recurring:
                    j["defer_by"] = 4 * S
                jobs.append(j)
    return jobs


def classify(d: dict, st: dict, conv: str) -> tuple:
    rc = "over" if d["tried"] > d["max"] else ("nobudget" if d["max"] == 0 else ("left" if d["tried"] < d["max"] else "spent"))
    o = st["k"] if st["k"] != "eager" else "eager:" + (st["api"] if isinstance(st["api"], str) else st["api"][0]) + ":" + \
        "+".join(p if isinstance(p, str) else ("cbR" if p[2] else "cb") for p in st.get("pre", []))
    return (o, rc, d["recurring"], d["result"], conv)


def check_run(run: WorkerRun, model: Model, res: Result, label: str) -> None:
    sc = run.sc
    conv = sc.get("converter", "basic")
    plans = {j["id"]: j for j in sc["jobs"]}
    horizon = next((e["t"] for e in run.events if e["kind"] == "run_horizon"), None)
    if horizon is None and not sc.get("M") and not sc.get("stops_itself"):
        # nobody asked this worker to stop (no message limit, no signal): its run() must still be going at the end of the window
        ret = next((e["t"] for e in run.events if e["kind"] == "run_return"), None)
        if ret is not None:
            res.bad("impl", "the worker stopped processing on its own (run() returned although nobody asked it to stop)",
                    case={"label": label, "converter": conv, "jobs": len(sc["jobs"])}, observed={"returned_at_us": ret},
                    expected="still running at the end of the observation window")
            horizon = ret + 10_000_000
    # executions cut off by the end of the observation window are not judged
    def cut(d):
        if horizon is None:
            return False
        if not d["calls"] and (d["end_t"] is None or d["end_t"] >= horizon):
            return True
        # whatever was still going on within the last millisecond before the window closed may have been cut short
        # (e.g. the result store that follows the broker call)
        last = max(x for x in (d["call_t"], d["end_t"], d["start_t"]) if x is not None)
        return last >= horizon - 1000
    ds = [d for d in deliveries(run) if (d["call_t"] is not None or d["end_t"] is not None) and not cut(d)]
    # a delivery that was handed to the processor long before the window closed (its time limit + 2 s) and got no broker
    # action at all — the body never entered (argument conversion, dependency resolution) and nothing reported
    if horizon is not None:
        for d in deliveries(run):
            j = plans[d["id"]]
            if d["call_t"] is None and d["end_t"] is None and d["start_t"] is None and not d["calls"] \
                    and d["t"] + int(j.get("timeout", 1_000_000)) + 2_000_000 < horizon:
                res.bad("impl", "exactly one, correct broker action per delivery: a delivery was handed to the processor and received "
                                "no broker action at all", case={"label": label, "job": j, "converter": conv,
                                                                  "delivery": {k: v for k, v in d.items() if k != "params"}},
                        observed="()", expected="exactly one call")
    if getattr(run, "broker_kind", "memory") != "memory":
        # on the networked brokers the disposition must also have taken effect at the server: after its last delivery was
        # acknowledged a message is in no place (in particular not still in flight), after a nack it is dead-lettered only
        all_ds = deliveries(run)
        last = {}
        for d in all_ds:
            last[d["id"]] = d
        places = run.msg_params(next(iter(set(sc.get("actors", {"act": "default"}).values()))))
        for jid, d in last.items():
            if cut(d) or len(d["calls"]) != 1 or isinstance(d["calls"][0], list):
                continue
            call = str(d["calls"][0])
            here = [h["place"] for h in places.get(jid, [])]
            want = {"ack": [], "nack": ["dead"]}.get(call)
            if want is not None and here != want:
                res.bad("impl", "the terminal action of the last delivery did not take effect at the broker (message still in flight / "
                                "present elsewhere)", case={"label": label, "job": plans.get(jid), "last_delivery": {k: v for k, v in d.items() if k != "store_events"}},
                        observed=here, expected=want)
    reqs, meta = [], []
    hb = run.results is not None
    sf = bool(sc.get("store_fail_all", False))
    for d in ds:
        j = plans[d["id"]]
        st = j["plan"][min(d["n"], len(j["plan"]) - 1)]
        now = d["call_t"] if d["call_t"] is not None else d["end_t"]
        pn = policy_us(run.policy_spec, d["tried"] + 1)
        reqs.append(sx([A("proc.process"), d["params"], now, pn, hb, sf, outcome_sx(st)]))
        success = st["k"] == "ret"
        reqs.append(sx([A("proc.disposition"), d["params"], success, now, pn]))
        pre_sx = outcome_sx(st)[1] if st["k"] == "eager" else []
        reqs.append(sx([A("c16.orderOk"), pre_sx, d["ran"]]))
        meta.append((d, st, j))
    answers = model.ask(reqs)
    res.extra["model_requests"] = res.extra.get("model_requests", 0) + len(answers)
    tainted: set[str] = set()    # ids duplicated by an earlier F8 event (two requeues of one message)
    for i, (d, st, j) in enumerate(meta):
        trace, disp, order_ok = answers[3 * i], answers[3 * i + 1], answers[3 * i + 2]
        if d["id"] in tainted:
            res.dist["skipped-after-F8-duplicate"] += 1
            continue
        obs = sx([A("trace"), d["calls"], d["stores"], d["body"]])
        # model answer: (trace calls stores bodyRan ran raised) — compare the first three + callbacks
        t = parse_sx(trace)
        exp = sx([A("trace"), t[1], t[2], t[3]])
        obs_n = obs
        cls = classify(d, st, conv)
        res.dist["%s|%s" % (cls[0].split(":")[0] if not cls[0].startswith("eager") else "eager", cls[1])] += 1
        case = {"label": label, "job": j, "converter": conv, "delivery": {k: v for k, v in d.items() if k not in ("params",)},
                "policy": run.policy_spec, "store_fail_all": sf}
        res.note(cls, sample={"job": j, "observed_calls": sx(d["calls"]), "model": trace} if len(res.samples) < 4 else None)
        exp_cbs = [int(c[1]) for c in t[4] if str(c[0]) == "cb"]
        corr_bad = _norm(exp) != _norm(obs_n) or exp_cbs != d["callbacks"]
        if st["k"] == "eager" and t[4]:
            # order of callback executions and of the result store after an eager response
            exp_ran = sx(t[4])
            obs_ran = sx(d["ran"])
            if _norm(exp_ran) != _norm(obs_ran):
                corr_bad = True
                d = dict(d, ran_expected=exp_ran, ran_observed=obs_ran)
        if corr_bad:
            res.bad("corr", "Worker.process model vs observed delivery (broker calls, stores, body entered, callbacks)",
                    case=case, observed={"trace": obs_n, "callbacks": d["callbacks"]}, expected={"trace": exp, "callbacks": exp_cbs})
        # the property itself on the observation
        eager_cb_fail = st["k"] == "eager" and (any((not isinstance(p, str)) and p[2] for p in st.get("pre", [])) or
                                                (sf and any(isinstance(p, str) for p in st.get("pre", []))))
        ok = len(d["calls"]) == 1
        if ok and st["k"] != "eager":
            ok = sx(d["calls"][0]) == disp
        if d["after_eager"] and len(d["calls"]) == 1 and st["k"] == "eager":
            ok = False   # body continued after an accepted eager response
        eager_accepted = st["k"] == "eager" and len(d["calls"]) == 1 and not d["after_eager"] and str(parse_sx(trace)[4]) != "[]" 
        if st["k"] == "eager" and parse_sx(trace)[4] and order_ok != "true":
            # callbacks after an eager response: registration order, store at the latest set_*
            res.bad("impl", "Pred.C16.orderOk: order of callback executions / result store after an eager response", case=case,
                    observed=sx(d["ran"]), expected="spec order for " + sx(pre_sx))
        if eager_cb_fail and len(d["calls"]) == 2:
            tainted.add(d["id"])
        if not ok:
            res.bad("impl", "exactly one, correct broker action per delivery", case=case,
                    observed=sx(d["calls"]), expected=disp if st["k"] != "eager" else "exactly one call",
                    finding=None)


def _norm(s: str) -> str:
    return " ".join(s.split())


async def run_scenario(sc: dict) -> WorkerRun:
    run = WorkerRun(sc)
    await run.enqueue_all()
    await run.run_worker(tasks_limit=sc.get("tasks_limit", 1000), horizon_s=sc.get("horizon_s", 13.0), signals=False)
    return run


# ------------------------------------------------------------------ synchronous actors (thread / process executors; real time)
class _BadInput(Exception):
    """an exception that cannot be rebuilt from its pickled form (two required arguments, one kept by Exception.__reduce__)"""

    def __init__(self, field: str, reason: str) -> None:
        super().__init__(f"{field}: {reason}")
        self.field, self.reason = field, reason


def _sync_good(x: int = 0) -> int:
    return x + 1


def _sync_bad(x: int = 0) -> int:
    raise _BadInput("amount", "must be positive")


def _sync_raise(x: int = 0) -> int:
    raise ValueError("plain failure")


async def sync_actors(in_process: bool) -> dict:
    """plain `def` actors run through the executors: each message's disposition follows its own outcome — whatever happened
    to the executor in an earlier delivery"""
    from repid import BasicConverter, Connection, InMemoryBucketBroker, InMemoryMessageBroker, Job, Router, Worker
    broker = InMemoryMessageBroker()
    conn = Connection(broker, results_bucket_broker=InMemoryBucketBroker(use_result_bucket=True))
    router = Router()
    for fn, name in ((_sync_good, "good"), (_sync_bad, "bad"), (_sync_raise, "raises")):
        router.actor(fn, name=name, run_in_process=in_process, converter=BasicConverter)
    await broker.queue_declare("default")
    order = ["good", "raises", "good", "bad", "good", "good"]
    for i, name in enumerate(order):
        await Job(name, args={"x": i}, id_=f"s{i}", store_result=True, result_id=f"sres{i}", _connection=conn).enqueue()
    w = Worker(routers=[router], messages_limit=len(order), tasks_limit=1, handle_signals=[], _connection=conn)
    finished = True
    try:
        await asyncio.wait_for(w.run(), 90)
    except asyncio.TimeoutError:
        finished = False
    q = broker.queues["default"]
    out = {"finished": finished, "dead": sorted(m.key.id_ for m in q.dead), "waiting": sorted(m.key.id_ for m in q.simple._queue),
           "processing": sorted(m.key.id_ for m in q.processing), "results": {}}
    for i, name in enumerate(order):
        b = await Job(name, result_id=f"sres{i}", _connection=conn).result
        out["results"][f"s{i}"] = None if b is None else [b.success, b.data]
    return out


def part_sync_actors(res: Result) -> None:
    import asyncio as _a
    for in_process in (False, True):
        loop = _a.new_event_loop()
        try:
            o = loop.run_until_complete(sync_actors(in_process))
        finally:
            loop.close()
        res.dist["sync-actors:" + ("process" if in_process else "thread")] += 6
        res.note(("sync-actors", in_process))
        want_dead = ["s1", "s3"]
        ok = o["finished"] and o["dead"] == want_dead and not o["waiting"] and not o["processing"] and \
            all(o["results"][f"s{i}"] == [True, str(i + 1)] for i in (0, 2, 4, 5)) and \
            all(o["results"][f"s{i}"] is not None and o["results"][f"s{i}"][0] is False for i in (1, 3))
        if not ok:
            res.bad("impl", "exactly one, correct broker action per delivery: synchronous actors run through the "
                            + ("process" if in_process else "thread") + " executor — a message's disposition did not follow its own outcome",
                    case={"label": "sync-actors", "run_in_process": in_process,
                          "messages": ["s0 good", "s1 raises ValueError", "s2 good", "s3 raises an unpicklable exception", "s4 good", "s5 good"]},
                    observed=o, expected={"dead": want_dead, "acked": ["s0", "s2", "s4", "s5"]})


def run(ctx) -> Result:
    tier, seed = ctx["tier"], ctx["seed"]
    res = Result("C02")
    model = Model()
    deep = tier == "thorough" or ctx.get("search")
    rng = Rng(seed, "c02")
    for conv in ("basic", "pydantic"):
        jobs = table_jobs(deep, rng)
        sc = {"jobs": jobs, "converter": conv, "policy": {"kind": "const", "us": 0}, "horizon_s": 9.5}
        r = vtime.run(lambda loop, s=sc: run_scenario(s), budget=30_000_000)
        check_run(r, model, res, f"table-{conv}")
    res.exhaustive = deep
    # failing result store (fault on every store): regression for the repaired defect F8
    for conv in ("basic",) + (("pydantic",) if deep else ()):
        jobs = [j for j in table_jobs(deep, rng) if j["store_result"]]
        sc = {"jobs": jobs, "converter": conv, "policy": {"kind": "const", "us": 0}, "horizon_s": 9.5, "store_fail_all": True}
        r = vtime.run(lambda loop, s=sc: run_scenario(s), budget=30_000_000)
        check_run(r, model, res, f"table-storefail-{conv}")
    # random mixes: concurrency limits, back-off policies
    for i in range(12 if deep else 3):
        r2 = Rng(seed, f"c02/mix/{i}")
        alljobs = table_jobs(True, r2)
        jobs = r2.sample(alljobs, 40)
        sc = {"jobs": jobs, "converter": r2.choice(["basic", "pydantic"]), "tasks_limit": r2.choice([1, 2, 5, 50]),
              "policy": r2.choice([{"kind": "const", "us": 0}, {"kind": "linear", "us": 300_000}, {"kind": "const", "us": S}]),
              "horizon_s": 12.0}
        # the first mix with every log record of the library processed (a verbose application: DEBUG)
        import logging
        lvl = logging.getLogger("repid").level
        if i == 0:
            logging.getLogger("repid").setLevel(logging.DEBUG)
        try:
            r = vtime.run(lambda loop, s=sc: run_scenario(s), budget=30_000_000)
        finally:
            logging.getLogger("repid").setLevel(lvl)
        check_run(r, model, res, f"mix-{seed}-{i}")
    # the same worker on the Redis and RabbitMQ brokers (in-process fake servers): disposition per delivery
    for kind in ("redis", "rabbit"):
        for pol_us in (0, 300_000):          # immediate retries (re-delivered at once) and delayed ones
            r3 = Rng(seed, f"c02/{kind}/{pol_us}")
            jobs = r3.sample(table_jobs(True, r3), 60 if deep else 30)
            sc = {"jobs": jobs, "converter": "basic", "policy": {"kind": "const", "us": pol_us}, "horizon_s": 14.0, "broker": kind}
            import logging
            lvl = logging.getLogger("repid").level
            if pol_us == 0:
                logging.getLogger("repid").setLevel(logging.DEBUG)      # (as above: one run per broker with DEBUG records)
            try:
                r = vtime.run(lambda loop, s=sc: run_scenario(s), budget=120_000_000)
            finally:
                logging.getLogger("repid").setLevel(lvl)
            check_run(r, model, res, f"table-{kind}-{pol_us}")
            res.dist[f"broker:{kind}"] += len(jobs)
    part_sync_actors(res)
    return res


def search(ctx) -> Result:
    return run(dict(ctx, tier="thorough"))
