/-
C03 / C10 on the Redis broker: what a stopping worker gives back.
Model: RepidModel/Worker/StopRedis.lean over RepidModel/Broker/Redis.lean.
-/
import RepidModel.Worker.StopRedis
import RepidProofs.Props.RedisConservation

namespace Repid.StopRedisProofs
open Repid Redis RedisProofs StopRedis

/-- rejecting a list of held messages one after the other: the "at most one place" invariant is kept and every message of
    the list, as well as every other message, is in exactly as many places as before (a reject moves, never drops or
    duplicates) -/
theorem rejectAll_places (cron : String → Int → Int) (now : Int) : ∀ (ks : List Key) (r : R), Inv r →
    (∀ k ∈ ks, sP r k.short = 1) → (ks.map (·.short)).Nodup →
    Inv (rejectAll r ks now cron) ∧ ∀ sh, places (rejectAll r ks now cron) sh = places r sh := by
  intro ks
  induction ks with
  | nil => intro r h _ _; exact ⟨h, fun _ => rfl⟩
  | cons k rest ih =>
    intro r hinv hheld hnd
    have hok : StepOk r (.reject k now) := hheld k (by simp)
    have hinv' := inv_step cron r (.reject k now) hinv hok
    have hpl := step_places cron r (.reject k now) hinv hok
    simp only [step, Op.short, Op.after] at hinv' hpl
    simp only [List.map_cons, List.nodup_cons] at hnd
    -- the other held messages are still held afterwards
    have hrest : ∀ k' ∈ rest, sP (reject r k now cron) k'.short = 1 := by
      intro k' hk'
      have hne : k'.short ≠ k.short := fun e => hnd.1 (e ▸ List.mem_map_of_mem hk')
      have h1 := hpl k'.short
      simp only [hne, if_false] at h1
      have hk1 := hheld k' (by simp [hk'])
      have hz := held_elsewhere_zero r k'.short (hinv _) hk1
      -- a reject of k changes no count of another short name
      have hcounts : sP (reject r k now cron) k'.short = sP r k'.short := by
        simp only [reject]
        split
        · rename_i p0 m0 _ _
          simp only [rejectTx]
          split
          · rw [(unmark_places (markDead r k) k k'.short).2.2.2]; simp [hne, (markDead_places r k k'.short).2.2.1]
          · rw [(unmark_places _ k k'.short).2.2.2]
            simp only [hne, if_false]
            exact (put_places r k _ true k'.short (fun e => absurd e hne)).2.2
        · rfl
      rw [hcounts]; exact hk1
    obtain ⟨hinvF, hplF⟩ := ih (reject r k now cron) hinv' hrest hnd.2
    refine ⟨hinvF, fun sh => ?_⟩
    simp only [rejectAll, List.foldl_cons] at hplF ⊢
    rw [hplF sh, hpl sh]
    by_cases hs : sh = k.short
    · subst hs
      have h1 := hheld k (by simp)
      have hz := held_elsewhere_zero r k.short (hinv _) h1
      simp only [if_true, places]; omega
    · simp only [hs, if_false]

/-- `stop_conserves`: whatever the worker holds when it stops — a message in hand, running executions, a prefetched
    local queue of any length — the stop sequence loses and duplicates nothing: every message is in exactly as many
    places as before, and at most one -/
theorem stop_conserves (w : W) (now : Int) (cron : String → Int → Int) (hinv : Inv w.r)
    (hheld : ∀ k ∈ w.givenBack, sP w.r k.short = 1) (hnd : (w.givenBack.map (·.short)).Nodup) :
    Inv (stop w now cron) ∧ ∀ sh, places (stop w now cron) sh = places w.r sh :=
  rejectAll_places cron now w.givenBack w.r hinv hheld hnd

/-- one held message (data and take marker present, as after every take): rejected, it is no longer marked in-flight -/
theorem reject_clears_in_flight (r : R) (k : Key) (p : Params) (m : Marker) (now : Int) (cron : String → Int → Int)
    (hp : (getHash r (k.prio, k.short)).params = some p) (hm : (getHash r (k.prio, k.short)).rejectTo = some m) :
    sP (reject r k now cron) k.short = 0 := by
  simp only [reject, hp, hm, rejectTx]
  split
  · rw [(unmark_places _ k k.short).2.2.2]; simp
  · rw [(unmark_places _ k k.short).2.2.2]; simp

/-- recorded finding F24: the message the fetch loop had just taken is not among those given back — after the stop it is
    still marked in-flight, in no queue -/
theorem stop_leaves_fetching_in_flight_witness :
    let h : Hash := { payload := some "{}", params := some {}, rejectTo := some .n }
    let w : W := { r := { processing := [("t:a", 0), ("t:b", 0)], hashes := [((5, "t:a"), h), ((5, "t:b"), h)] },
                   fetching := some ⟨5, "t", "a"⟩, loc := [⟨5, "t", "b"⟩] }
    (stop w 0 (fun _ t => t)).processing = [("t:a", 0)] ∧ (stop w 0 (fun _ t => t)).normal = [(5, "t:b")] := by decide

end Repid.StopRedisProofs
