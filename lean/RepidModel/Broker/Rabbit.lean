/-
RabbitMQ message broker (code-model) over an abstract AMQP server, one repid queue = three AMQP queues.  Anchors:
  repid/connections/rabbitmq/message_broker.py:68-101   enqueue (routing key, expiration in ms, properties)
  repid/connections/rabbitmq/message_broker.py:103-150  ack / nack / reject / requeue (= ack, then enqueue)
  repid/connections/rabbitmq/message_broker.py:152-182  queue_declare (dead-letter wiring of the three queues)
  repid/connections/rabbitmq/consumer.py:40-46,137-222  consume (local FIFO), on_new_message (topic filter, overdue → nack)
Server semantics assumed (assumption set A, DESIGN §3): a queue with x-max-priority is ordered by (priority desc,
arrival asc); reject/nack(requeue=True) puts the message back at its original position; nack/reject(requeue=False)
and an expired per-message TTL dead-letter the message to the queue's x-dead-letter-routing-key (expiration removed,
new arrival number); the per-message TTL fires ONLY at the head of the queue; a delivered message is exclusively its
consumer's until ack/nack/reject.
-/
import RepidModel.Sched

namespace Repid.Rabbit
open Repid

inductive Qn where
  | main | delayed | dead
  deriving Repr, DecidableEq, Inhabited

structure Msg where
  id : String
  topic : String
  prio : Nat
  payload : String
  params : Params
  expiresAt : Option Int := none      -- µs; fires only at the head of its queue
  seq : Nat := 0
  deriving Repr, DecidableEq, Inhabited

/-- a consumer (one per channel): the category it consumes and its local FIFO of delivered, not yet consumed messages -/
structure Cons where
  cat : Qn
  topics : List String := []
  loc : List Msg := []
  deriving Repr, DecidableEq, Inhabited

structure S where
  main : List Msg := []
  delayed : List Msg := []
  dead : List Msg := []
  unacked : List (Nat × Qn × Msg) := []      -- (consumer, queue it was delivered from, message)
  consumers : List (Nat × Cons) := []
  seq : Nat := 0
  dropped : List Msg := []
  clock : Int := 0                             -- time of the latest server activity
  deriving Repr, DecidableEq, Inhabited

def S.get (s : S) : Qn → List Msg
  | .main => s.main | .delayed => s.delayed | .dead => s.dead

def S.set (s : S) (q : Qn) (l : List Msg) : S :=
  match q with
  | .main => { s with main := l } | .delayed => { s with delayed := l } | .dead => { s with dead := l }

def cap (p : Nat) : Nat := min p 9

/-- position by (priority desc, arrival asc) -/
def insert (m : Msg) : List Msg → List Msg
  | [] => [m]
  | x :: rest =>
    if cap x.prio < cap m.prio ∨ (cap x.prio = cap m.prio ∧ m.seq < x.seq) then m :: x :: rest
    else x :: insert m rest

/-- dead-letter target of each queue (`queue_declare`) -/
def dlx : Qn → Option Qn
  | .main => some .dead
  | .delayed => some .main
  | .dead => none

def deadLetter (s : S) (q : Qn) (m : Msg) : S :=
  match dlx q with
  | none => { s with dropped := m :: s.dropped }
  | some t =>
    let m' := { m with expiresAt := none, seq := s.seq + 1 }
    ({ s with seq := s.seq + 1 }).set t (insert m' (s.get t))

/-- `enqueue`: routing and expiration.  `millis` = `int((due - now).total_seconds() * 1000)` as computed by the code
    (a float product; see `millisOk`) -/
def publish (s : S) (m : Msg) (millis : Option Int) (now : Int) : S :=
  match millis with
  | some ms =>
    if ms > 0 then
      let m' := { m with expiresAt := some (now + ms * 1000), seq := s.seq + 1 }
      { s with seq := s.seq + 1, delayed := insert m' s.delayed }
    else
      let m' := { m with expiresAt := none, seq := s.seq + 1 }
      { s with seq := s.seq + 1, main := insert m' s.main }
  | none =>
    let m' := { m with expiresAt := none, seq := s.seq + 1 }
    { s with seq := s.seq + 1, main := insert m' s.main }

/-- the float product may fall just below an exact integer number of milliseconds -/
def millisOk (delta ms : Int) : Bool := decide (ms * 1000 ≤ delta ∧ delta - 1000 ≤ ms * 1000)

/-- `on_new_message`: what the consumer does with a delivery -/
inductive Decision where
  | hold              -- remembered under its delivery tag and put into the local queue
  | nackDead          -- overdue: basic_nack(requeue=False) → dead-letter exchange
  | rejectBack        -- foreign topic: basic_reject(requeue=True)
  deriving Repr, DecidableEq, Inhabited

def onMessage (c : Cons) (m : Msg) (now : Int) : Decision :=
  if !c.topics.isEmpty && !c.topics.contains m.topic then .rejectBack
  else if m.params.isOverdue now && c.cat == .main then .nackDead
  else .hold

def setCons (s : S) (cid : Nat) (c : Cons) : S :=
  { s with consumers := s.consumers.map fun e => if e.1 == cid then (cid, c) else e }

/-- the server pushes the head of every consumed queue to its consumer (unlimited prefetch; one consumer per queue in
    the modelled sessions; foreign topics are not modelled here: `rejectBack` stops the pump) -/
def pump (now : Int) : Nat → S → S
  | 0, s => s
  | fuel + 1, s =>
    -- dead-letter consumers first: a message dead-lettered by a consumer's nack reaches them before the next delivery is decided
    match ((s.consumers.filter fun e => e.2.cat == .dead) ++ (s.consumers.filter fun e => e.2.cat != .dead)).findSome?
        (fun e => match s.get e.2.cat with | m :: _ => some (e, m) | [] => none) with
    | none => s
    | some ((cid, c), m) =>
      let s := s.set c.cat ((s.get c.cat).drop 1)
      match onMessage c m now with
      | .hold => pump now fuel (setCons { s with unacked := s.unacked ++ [(cid, c.cat, m)] } cid { c with loc := c.loc ++ [m] })
      | .nackDead => pump now fuel (deadLetter s c.cat m)
      | .rejectBack => s.set c.cat (insert m (s.get c.cat))

/-- per-message TTL: only the head of the delayed queue can expire; each expiry is processed at its own time (not
    earlier than the latest server activity) and the consumers are served right then -/
def expireHeads (now : Int) : Nat → S → S
  | 0, s => s
  | fuel + 1, s =>
    match s.delayed with
    | m :: rest =>
      match m.expiresAt with
      | some t =>
        if t ≤ now then
          let te := max t s.clock
          let s := deadLetter { s with delayed := rest } .delayed m
          expireHeads now fuel (pump te (2 * (s.main.length + s.dead.length + 1)) { s with clock := te })
        else s
      | none => s
    | [] => s

def settle (s : S) (now : Int) : S :=
  let n := s.main.length + s.delayed.length + s.dead.length + 1
  let s := expireHeads now n s
  pump now (2 * n) { s with clock := max now s.clock }

def takeUnacked (s : S) (id : String) : S × Option (Nat × Qn × Msg) :=
  match s.unacked.find? (·.2.2.id == id) with
  | some e => ({ s with unacked := s.unacked.filter fun x => !(x.2.2.id == id) }, some e)
  | none => (s, none)

def nack (s : S) (id : String) : S :=
  match takeUnacked s id with
  | (s, some (_, q, m)) => deadLetter s q m
  | (s, none) => s

/-- `consume()`: the local FIFO; `cat` is the consumer's (immutable) category.  A message of the NORMAL category whose
    ttl has run out while it waited there is dead-lettered and the next one is looked at (`fix:` b51e388 — before it
    the prefetched message was handed over) -/
def consume (now : Int) (cat : Qn) : Nat → S → Nat → S × Option Msg
  | 0, s, _ => (s, none)
  | fuel + 1, s, cid =>
    match s.consumers.find? (·.1 == cid) with
    | some (_, c) =>
      match c.loc with
      | m :: rest =>
        let s := setCons s cid { c with loc := rest }
        if m.params.isOverdue now && cat == .main then
          -- the nack is one round trip; the server serves its consumers (the dead-letter consumer) right after it
          let s := nack s m.id
          consume now cat fuel (pump now (2 * (s.main.length + s.dead.length + 1)) s) cid
        else (s, some m)
      | [] => (s, none)
    | none => (s, none)

def ack (s : S) (id : String) : S := (takeUnacked s id).1

/-- reject(requeue=True): back to the queue it was delivered from, at its original position -/
def reject (s : S) (id : String) : S :=
  match takeUnacked s id with
  | (s, some (_, q, m)) => s.set q (insert m (s.get q))
  | (s, none) => s

/-- `_RabbitConsumer.finish`: the consumer is cancelled at the server (no further deliveries) and every message still in
    its local queue is rejected (requeue) under its delivery tag (consumer.py:128-146); the server reacts to each reject
    as it arrives (a returned message whose delay has run out expires at once when it comes to the head of its queue) -/
def finish (s : S) (cid : Nat) (now : Int) : S :=
  match s.consumers.find? (·.1 == cid) with
  | some (_, c) => c.loc.foldl (fun acc m => settle (reject acc m.id) now) { s with consumers := s.consumers.filter (·.1 != cid) }
  | none => s

/-- `requeue` = `ack` (first round trip), then `enqueue` (second round trip) -/
def requeueAtoms (m : Msg) (millis : Option Int) (now : Int) : List (S → S) :=
  [fun s => ack s m.id, fun s => publish s m millis now]

def requeue (s : S) (m : Msg) (millis : Option Int) (now : Int) : S :=
  (requeueAtoms m millis now).foldl (fun acc f => f acc) s

/-- all the places of an id -/
def places (s : S) (id : String) : Nat :=
  (s.main.filter (·.id == id)).length + (s.delayed.filter (·.id == id)).length + (s.dead.filter (·.id == id)).length +
  (s.unacked.filter (·.2.2.id == id)).length

end Repid.Rabbit
