#!/usr/bin/env python3
"""tools/mutate.py gen [N] [seed]      — list N single-token changes of /repo/repid (stratified over files) as JSON lines
   tools/mutate.py run <file.jsonl>    — apply each in a scratch worktree, run the quick checks of the properties anchored in
                                          (or near) the changed file, print which check reports it

A systematic complement to the sub-agents' seeded changes: boundary of a comparison, and/or, a dropped `not`, is / is not,
True/False, +/-, small integer ±1.  A change no check reports is either equivalent (no behaviour changes) or a gap — the
survivors are listed for reading.  Nothing is ever applied to /repo itself."""
import ast
import json
import os
import random
import subprocess
import sys
import tempfile
from pathlib import Path

REPO = Path("/repo")
VERIF = Path(__file__).resolve().parent.parent

SWAP_CMP = {ast.Lt: "<=", ast.LtE: "<", ast.Gt: ">=", ast.GtE: ">", ast.Eq: "!=", ast.NotEq: "==", ast.Is: "is not", ast.IsNot: "is",
            ast.In: "not in", ast.NotIn: "in"}
CMP_TXT = {ast.Lt: "<", ast.LtE: "<=", ast.Gt: ">", ast.GtE: ">=", ast.Eq: "==", ast.NotEq: "!=", ast.Is: "is", ast.IsNot: "is not",
           ast.In: "in", ast.NotIn: "not in"}

NEAR = {   # files without an anchor of their own: the properties whose behaviour passes through them
    "repid/connections/abc.py": ["C01", "C02", "C14", "C17"], "repid/queue.py": ["C01", "C12", "C16", "C11"],
    "repid/message.py": ["C16", "C02", "C04"], "repid/connection.py": ["C17", "C13"], "repid/serializer.py": ["C07", "C08"],
    "repid/config.py": ["C08", "C07"], "repid/actor.py": ["C11", "C08"], "repid/main.py": ["C01", "C20"],
    "repid/testing/modifiers.py": ["C10"], "repid/testing/plugin.py": ["C10"],
    "repid/connections/in_memory/bucket_broker.py": ["C13", "C07"], "repid/connections/redis/bucket_broker.py": ["C13", "C07"],
    "repid/connections/rabbitmq/utils.py": ["C05", "C07", "C20"], "repid/data/_key.py": ["C07", "C11"],
    "repid/middlewares/consts.py": ["C17"], "repid/_utils/json_encoder.py": ["C07", "C13"], "repid/logger.py": ["C17", "C02"],
}


def anchors() -> dict:
    m: dict = {}
    for line in open(VERIF / "properties.jsonl"):
        d = json.loads(line)
        for f in d["anchors"]["files"]:
            m.setdefault(f, []).append(d["id"])
    for f, ps in NEAR.items():
        m.setdefault(f, [])
        m[f] = sorted(set(m[f] + ps))
    return m


def in_logger_call(node, parents) -> bool:
    for p in parents:
        if isinstance(p, ast.Call) and isinstance(p.func, ast.Attribute) and isinstance(p.func.value, ast.Name) and p.func.value.id == "logger":
            return True
    return False


def candidates(path: Path) -> list:
    src = path.read_text()
    lines = src.split("\n")
    tree = ast.parse(src)
    out = []

    def seg(node):
        return ast.get_source_segment(src, node)

    def visit(node, parents):
        ann = any(isinstance(p, (ast.AnnAssign,)) and getattr(p, "annotation", None) is node for p in parents)
        if isinstance(node, ast.Compare) and len(node.ops) == 1 and not in_logger_call(node, parents):
            op = type(node.ops[0])
            if op in SWAP_CMP:
                left_end = (node.left.end_lineno, node.left.end_col_offset)
                right_start = (node.comparators[0].lineno, node.comparators[0].col_offset)
                if left_end[0] == right_start[0]:
                    ln = left_end[0] - 1
                    between = lines[ln][left_end[1]:right_start[1]]
                    if CMP_TXT[op] in between:
                        new = lines[ln][:left_end[1]] + between.replace(CMP_TXT[op], SWAP_CMP[op], 1) + lines[ln][right_start[1]:]
                        out.append((ln, new, f"{CMP_TXT[op]} -> {SWAP_CMP[op]}"))
        if isinstance(node, ast.BoolOp) and not in_logger_call(node, parents):
            a, b = node.values[0], node.values[1]
            if a.end_lineno == b.lineno:
                ln = a.end_lineno - 1
                between = lines[ln][a.end_col_offset:b.col_offset]
                old, new_op = (" and ", " or ") if isinstance(node.op, ast.And) else (" or ", " and ")
                if old in between:
                    out.append((ln, lines[ln][:a.end_col_offset] + between.replace(old, new_op, 1) + lines[ln][b.col_offset:],
                                f"{old.strip()} -> {new_op.strip()}"))
        if isinstance(node, ast.UnaryOp) and isinstance(node.op, ast.Not) and node.lineno == node.operand.lineno:
            ln = node.lineno - 1
            out.append((ln, lines[ln][:node.col_offset] + lines[ln][node.operand.col_offset:], "not dropped"))
        if isinstance(node, ast.Constant) and isinstance(node.value, bool) and not ann and not in_logger_call(node, parents):
            ln = node.lineno - 1
            out.append((ln, lines[ln][:node.col_offset] + str(not node.value) + lines[ln][node.end_col_offset:], f"{node.value} -> {not node.value}"))
        if isinstance(node, ast.Constant) and type(node.value) is int and 0 <= node.value <= 10 and not in_logger_call(node, parents) \
                and not any(isinstance(p, (ast.Subscript, ast.Slice)) for p in parents[:1]):
            ln = node.lineno - 1
            out.append((ln, lines[ln][:node.col_offset] + str(node.value + 1) + lines[ln][node.end_col_offset:], f"{node.value} -> {node.value + 1}"))
        if isinstance(node, ast.BinOp) and isinstance(node.op, (ast.Add, ast.Sub)) and node.left.end_lineno == node.right.lineno:
            ln = node.left.end_lineno - 1
            between = lines[ln][node.left.end_col_offset:node.right.col_offset]
            old, new_op = ("+", "-") if isinstance(node.op, ast.Add) else ("-", "+")
            if old in between:
                out.append((ln, lines[ln][:node.left.end_col_offset] + between.replace(old, new_op, 1) + lines[ln][node.right.col_offset:],
                            f"{old} -> {new_op}"))
        for ch in ast.iter_child_nodes(node):
            visit(ch, [node] + parents)
    visit(tree, [])
    res = []
    for ln, new, what in out:
        old = lines[ln]
        if new != old and "TYPE_CHECKING" not in old and "__slots__" not in old and "pragma: no cover" not in old and "sys.version_info" not in old:
            res.append({"file": str(path.relative_to(REPO)), "line": ln + 1, "old": old, "new": new, "what": what})
    return res


def gen(n: int, seed: int) -> None:
    rng = random.Random(seed)
    anch = anchors()
    by_file = {}
    for f in sorted(anch):
        p = REPO / f
        if p.exists():
            c = candidates(p)
            if c:
                by_file[f] = c
    files = sorted(by_file)
    picked = []
    while len(picked) < n and any(by_file.values()):
        for f in files:
            if by_file[f] and len(picked) < n:
                picked.append(by_file[f].pop(rng.randrange(len(by_file[f]))))
    for m in picked:
        m["props"] = anch[m["file"]]
        print(json.dumps(m))


def run(listing: str) -> None:
    muts = [json.loads(x) for x in open(listing) if x.strip()]
    for k, m in enumerate(muts):
        wt = tempfile.mkdtemp(prefix="mutwt_", dir="/tmp")
        os.rmdir(wt)
        subprocess.run(["git", "-C", str(REPO), "worktree", "add", "--detach", wt, "HEAD", "-q"], check=True)
        try:
            p = Path(wt) / m["file"]
            lines = p.read_text().split("\n")
            assert lines[m["line"] - 1] == m["old"], "source moved"
            lines[m["line"] - 1] = m["new"]
            p.write_text("\n".join(lines))
            ok = subprocess.run(["/venv/bin/python", "-c", "import sys; sys.path.insert(0, %r); import repid" % wt], capture_output=True)
            if ok.returncode != 0:
                print(json.dumps({"k": k, **{x: m[x] for x in ("file", "line", "what")}, "result": "does-not-import"}), flush=True)
                continue
            procs = {}
            for prop in m["props"]:
                procs[prop] = subprocess.Popen([str(VERIF / "check"), prop, "--no-lean"], cwd=str(VERIF), env=dict(os.environ, REPID_REPO=wt),
                                               stdout=subprocess.PIPE, stderr=subprocess.STDOUT, text=True)
            caught, other = [], []
            for prop, pr in procs.items():
                try:
                    out, _ = pr.communicate(timeout=1500)
                except subprocess.TimeoutExpired:
                    pr.kill()
                    out, _ = pr.communicate()
                    other.append(prop + ":timeout")
                    continue
                if pr.returncode == 1 and "VIOLATION" in out:
                    caught.append(prop + ("~" if "no-failing-input-found" in out else ""))
                elif pr.returncode != 0:
                    other.append(f"{prop}:rc{pr.returncode}")
            print(json.dumps({"k": k, **{x: m[x] for x in ("file", "line", "what")}, "old": m["old"].strip()[:110],
                              "result": "caught" if caught else "SURVIVED", "by": caught, "other": other}), flush=True)
        finally:
            subprocess.run(["git", "-C", str(REPO), "worktree", "remove", "--force", wt])


if __name__ == "__main__":
    if sys.argv[1] == "gen":
        gen(int(sys.argv[2]) if len(sys.argv) > 2 else 100, int(sys.argv[3]) if len(sys.argv) > 3 else 0)
    else:
        run(sys.argv[2])
