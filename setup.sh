#!/bin/bash
# MANIFEST.setup_cmd — build the framework from files on disk only (offline).
set -e
cd "$(dirname "$0")"
PYTHONPATH=${REPID_REPO:-/repo} /venv/bin/python harness/extract.py
(cd lean && lake build RepidModel RepidProofs repid_model)
/venv/bin/python -m py_compile check harness/*.py harness/props/*.py
mkdir -p evidence replays
echo "setup ok"
